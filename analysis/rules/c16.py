"""C16 — factory registry: one pair per unordered asset set, consistent with the pair (DESIGN §5 C16)."""
import re
from .. import common, roles, lemmas
from ..roles import P_, param, INFO_TY, ENV_TY, AnchorMissing
from ..mir import generic_path



def pairs_accesses(ctx):
    out = []
    for fn in ctx.P.prod_fns():
        for writes in (True, False):
            for (b, op, item, v) in common.storage_sites(ctx.P, fn, writes=writes):
                if item == ctx.N.PAIRS:
                    out.append((fn, b, op, v))
    return out


def key_function(ctx, inst):
    """The workspace function whose result keys the PAIRS accesses (role: registry key function)."""
    P = ctx.P
    cands = set()
    for fn, b, op, v in pairs_accesses(ctx):
        if op in ("range", "keys", "prefix", "range_raw", "keys_raw"):
            continue
        for r in ctx.roots(v[4][2]):
            m = re.match(r"^C:([\w:]+)@", r)
            if m and roles.is_workspace_fn(P, m.group(1)):
                cands.add(m.group(1))
    if len(cands) != 1:
        inst.fail("%s:keyfn-anchor" % inst.id, "-", "-", "anchor-missing: registry key function (unique workspace callee keying PAIRS): candidates %s" % sorted(cands))
        return None
    return P.fn(list(cands)[0])


class KeyShape:
    pass


def analyse_key_fn(ctx, inst, kf):
    """R2 + R3 on the key function body."""
    P = ctx.P
    body = kf.body
    exits = common.exit_sites(P, kf)
    comps = None
    if len(exits) == 1 and exits[0][3][0] == "call" and common.last_seg(exits[0][3][3]) == "concat":
        arr = exits[0][3][4][0]
        if arr[0] == "agg" and arr[1] == "array":
            comps = [fv for _, fv in arr[3]]
    elif len(exits) == 1:
        # a Vec<u8> filled by push / extend_from_slice in straight-line code
        vb = common.vec_build(P, kf, exits[0][3])
        if vb is not None and common.is_empty_vec_base(vb[0]) and vb[1] and all(op in ("push", "extend_from_slice", "extend") and not lp for op, cv_, lp in vb[1]):
            comps = []
            for op, cv_, lp in vb[1]:
                x = cv_[4][1]
                if op == "push":
                    # one byte: same shape as `&[x][..]`
                    comps.append(("call", kf.path, cv_[2], "core::array::<impl core::ops::Index<I> for [T; N]>::index", (("agg", "array", "array", ((0, x),)), ("const", "zst", "RangeFull"))))
                else:
                    if x[0] == "call" and isinstance(x[3], str) and common.last_seg(x[3]) in ("to_be_bytes", "to_le_bytes"):
                        comps.append(("call", kf.path, cv_[2], "core::array::<impl core::ops::Index<I> for [T; N]>::index", (x, ("const", "zst", "RangeFull"))))
                    else:
                        comps.append(x)
    if comps is None:
        inst.fail("C16.R3:shape", kf.path, kf.span, "key is neither a concatenation of components nor a byte vector filled by push/extend_from_slice: unrecognised-idiom")
        return

    def strip_mut(v):
        while v[0] == "mut":
            v = v[1]
        return v

    sorted_src = {}

    def find_ordering():
        """`let (first, second) = if K(b) < K(a) { (b, a) } else { (a, b) }` over the two elements of the argument:
        returns {'T': region, 'F': region, 'eA': i, 'eB': j, 'callees': set} meaning K(arg[i]) < K(arg[j]) on the true edge."""
        for g_ in common.bool_guards(P, kf):
            c_ = g_.cond
            if c_[0] != "cmp" or c_[1] not in ("lt", "gt", "le", "ge") or len(c_[2]) != 2:
                continue
            # one level only: the ordering-key helper is opened, the tag function inside it stays a call
            A, B = ((common.inline_call(P, x) or x) for x in c_[2])
            if c_[1] in ("gt", "ge"):
                A, B = B, A

            def key_of(v):
                calls_ = [x for x in common.walk(v) if x[0] == "call" and isinstance(x[3], str) and x[4] and
                          re.match(r"^%s\[(\d)\]$" % re.escape(P_(kf, 0)), "|".join(sorted(ctx.roots(x[4][0]))))]
                idx = {int(re.match(r"^%s\[(\d)\]$" % re.escape(P_(kf, 0)), "|".join(sorted(ctx.roots(x[4][0])))).group(1)) for x in calls_}
                names_ = ["as_bytes" if ctx.N.is_fn(x[3], "raw_as_bytes") else generic_path(x[3]) for x in calls_]
                return (list(idx)[0] if len(idx) == 1 else None, names_)
            ia, na = key_of(A)
            ib, nb = key_of(B)
            if ia is None or ib is None or ia == ib or na != nb or not na:
                continue
            return {"T": common.region_of_edge(body, g_.edge(True)), "F": common.region_of_edge(body, g_.edge(False)), "eA": ia, "eB": ib,
                    "callees": set(na), "guard": g_}
        return None
    ordering = find_ordering()

    def elem_of(v, call=None):
        """('sorted', k) when v is sorted_vec[k] (or the k-th of a compare-and-swapped pair); ('param', k) when v is the
        unsorted argument's element k."""
        if ordering is not None and call is not None:
            rs0 = set(ctx.roots(v))
            both = {"%s[0]" % P_(kf, 0), "%s[1]" % P_(kf, 0)}
            if rs0 == both:
                t_ = body.blocks[call[2]]["term"]
                if t_["k"] == "call" and t_["args"]:
                    n_ = len(body.blocks[call[2]]["stmts"])
                    sel_ = []
                    regs_ = (ordering["T"], ordering["F"])
                    for ri_, reg in enumerate(regs_):
                        rr = "|".join(sorted(ctx.roots(P.val_operand_in(kf, (call[2], n_), t_["args"][0], reg))))
                        m_ = re.match(r"^%s\[(\d)\]$" % re.escape(P_(kf, 0)), rr)
                        if not m_:
                            # an `if` without `else` (swap in place): the edge that skips the swap has no definition of its
                            # own — what reaches the use along it is whatever was not defined on the other edge
                            comp_ = set(range(len(body.blocks))) - set(regs_[1 - ri_])
                            rr = "|".join(sorted(ctx.roots(P.val_operand_in(kf, (call[2], n_), t_["args"][0], comp_))))
                            m_ = re.match(r"^%s\[(\d)\]$" % re.escape(P_(kf, 0)), rr)
                        sel_.append(int(m_.group(1)) if m_ else None)
                    if sel_ == [ordering["eA"], ordering["eB"]]:
                        return ("sorted", 0)      # the smaller key on both edges
                    if sel_ == [ordering["eB"], ordering["eA"]]:
                        return ("sorted", 1)
                return None
        if v[0] == "call" and isinstance(v[3], str) and common.last_seg(v[3]) == "index" and len(v[4]) == 2 and v[4][1][0] == "const" and v[4][1][1] == "int":
            base = v[4][0]
            k = v[4][1][2]
            sb = strip_mut(base)
            if sb[0] == "call" and isinstance(sb[3], str) and common.last_seg(sb[3]) in ("to_vec", "clone", "to_owned") and set(ctx.roots(sb[4][0])) == {P_(kf, 0)}:
                if base[0] == "mut":
                    sorted_src[k] = base
                    return ("sorted", k)
                return ("copy", k)
            if sb[0] == "call" and isinstance(sb[3], str) and roles.is_workspace_fn(P, sb[3]) and len(sb[4]) == 1 and set(ctx.roots(sb[4][0])) == {P_(kf, 0)}:
                # the sorted copy comes from a helper (`sorted_asset_infos(asset_infos)`): a function of the same argument
                # returning the collection of the two assets; that it sorts them is checked on its body below
                g_ = P.fn(sb[3]) or P.fn(generic_path(sb[3]))
                if g_ is not None and g_.body is not None and g_.body.arg_count == 1 and ctx.N.AssetInfoRaw in (g_.sig or "").split("->")[-1]:
                    gex = [x for x in common.exit_sites(P, g_) if x[2] != "err"]
                    if len(gex) == 1 and gex[0][3][0] == "mut":
                        gsb = strip_mut(gex[0][3])
                        if gsb[0] == "call" and isinstance(gsb[3], str) and common.last_seg(gsb[3]) in ("to_vec", "clone", "to_owned") and set(ctx.roots(gsb[4][0])) == {P_(g_, 0)}:
                            sorted_src[k] = ("helper", g_, gex[0][3])
                            return ("sorted", k)
        rs = set(ctx.roots(v))
        m = re.match(r"^%s\[(\d)\]$" % re.escape(P_(kf, 0)), "|".join(sorted(rs)))
        if m:
            return ("param", int(m.group(1)))
        return None

    descr = []
    for ci, c in enumerate(comps):
        d = None
        if c[0] == "call" and isinstance(c[3], str):
            g = generic_path(c[3])
            nm = common.last_seg(g)
            if ctx.N.is_fn(c[3], "raw_as_bytes"):
                e = elem_of(c[4][0], c)
                d = ("var", e)
            elif nm == "index" and "array" in g:
                # fixed-width slice of an array
                src = c[4][0]
                n = None
                inner = src
                if inner[0] == "agg" and inner[1] == "array":
                    n = len(inner[3])
                    payload = inner[3][0][1] if n == 1 else None
                    if payload is not None and payload[0] == "call" and isinstance(payload[3], str) and roles.is_workspace_fn(P, payload[3]):
                        d = ("fixed", n, ("tag", generic_path(payload[3]), elem_of(payload[4][0], payload)))
                    else:
                        d = ("fixed", n, ("other", ctx.show(src, 3)))
                elif inner[0] == "call" and isinstance(inner[3], str) and common.last_seg(inner[3]) in ("to_be_bytes", "to_le_bytes"):
                    width = {"u8": 1, "u16": 2, "u32": 4, "u64": 8, "usize": 8, "u128": 16}
                    m = re.search(r"impl (u\d+|usize)>", inner[3])
                    n = width.get(m.group(1)) if m else None
                    x = inner[4][0]
                    while x[0] == "cast":
                        x = x[2]
                    if x[0] == "call" and isinstance(x[3], str) and common.last_seg(x[3]) == "len":
                        y = x[4][0]
                        if y[0] == "call" and ctx.N.is_fn(y[3], "raw_as_bytes"):
                            d = ("fixed", n, ("len", elem_of(y[4][0], y)))
                    if d is None:
                        d = ("fixed", n, ("other", ctx.show(src, 3)))
        if d is None:
            inst.fail("C16.R3:component:%d" % ci, kf.path, kf.span, "key component #%d (%s) is neither a fixed-width field nor an identifier byte string: unrecognised-idiom" % (ci, ctx.show(c, 3)))
            return
        descr.append(d)
    ctx.extra["key_encoding"] = [str(d) for d in descr]
    # all element references must go to the sorted copy
    bad = [d for d in descr if (d[0] == "var" and (d[1] is None or d[1][0] != "sorted")) or
           (d[0] == "fixed" and d[2][0] in ("tag", "len") and (d[2][-1] is None or d[2][-1][0] != "sorted"))]
    if bad:
        inst.fail("C16.R2:unsorted-component", kf.path, kf.span,
                  "a key component is taken from the caller's (unsorted) argument instead of the sorted copy: %s — the key would depend on the order the assets are given" % bad[:2])
    vars_ = [d for d in descr if d[0] == "var"]
    if sorted(d[1][1] for d in vars_ if d[1]) != [0, 1]:
        inst.fail("C16.R3:identifiers", kf.path, kf.span, "the key does not contain the identifiers of both sorted assets exactly once (%s)" % vars_)
    # injectivity: every variable-length component except the last needs an earlier fixed-width length prefix of the same element
    for pos, d in enumerate(descr):
        if d[0] == "var" and any(x[0] == "var" for x in descr[pos + 1:]) or (d[0] == "var" and any(x[0] == "fixed" for x in descr[pos + 1:])):
            pref = [x for x in descr[:pos] if x[0] == "fixed" and x[2][0] == "len" and x[2][1] == d[1] and x[1]]
            if not pref:
                inst.fail("C16.R3:not-injective", kf.path, kf.span,
                          "variable-length identifier #%d is followed by further key bytes but has no length prefix: different asset sets can concatenate to the same key (e.g. {\"aaa\",\"bccc\"} vs {\"aaab\",\"ccc\"})" % pos)
    tags = [d for d in descr if d[0] == "fixed" and d[2][0] == "tag"]
    if sorted(d[2][2][1] for d in tags if d[2][2]) != [0, 1]:
        inst.fail("C16.R3:no-kind-tag", kf.path, kf.span, "the key does not tag the kind (native / token) of both assets: a denom and a token address with equal bytes would collide")
    else:
        # the tag function distinguishes the two kinds
        tf = P.fn(tags[0][2][1])
        tab = lemmas.fn_table(ctx, tf) if tf else []
        consts = {}
        for b, v, cs in tab:
            if v[0] == "const" and v[1] == "int":
                consts.setdefault(v[2], set()).update(cs)
        if len(tab) != 2 or len(consts) != 2 or not all(any("is_native_token" in c for c in cs) for cs in consts.values()):
            inst.fail("C16.R3:tag-fn", tf.path if tf else kf.path, tf.span if tf else kf.span, "the kind tag function does not map the two asset kinds to two distinct constants: unrecognised-idiom")
        else:
            inst.site("kind tag %s: native/token -> %s" % (tf.path, sorted(consts)))
    if inst.status == "pass":
        inst.site("encoding %s" % " | ".join("%s" % (d[0] + ":" + (str(d[1]) if d[0] == "var" else "%s(%s)" % (d[2][0], d[2][-1]))) for d in descr))
    # ---- symmetry: compare-and-swap of the two elements ----------------------------------------------------------
    if ordering is not None and not sorted_src:
        names_ = ordering["callees"]
        uses_bytes = "as_bytes" in names_
        uses_tag = any(t_[2][1] in names_ for t_ in tags) if tags else False
        if uses_bytes and (uses_tag or not tags):
            inst.site("ordered by compare-and-swap on %s of each asset (smaller key first on both edges)" % sorted(x.split("::")[-1] for x in names_))
        elif uses_bytes:
            inst.fail("C16.R2:comparator-not-total", kf.path, common.span_of_block_term(kf, ordering["guard"].b),
                      "the two assets are ordered by identifier bytes only; two assets with equal bytes but different kinds tie and keep the caller's order (key not symmetric)")
        else:
            inst.fail("C16.R2:comparator", kf.path, common.span_of_block_term(kf, ordering["guard"].b), "the ordering key is not built from the identifier bytes: unrecognised-idiom")
        return
    # ---- symmetry: the sort ------------------------------------------------------------------------------------
    srcs = list(sorted_src.values())
    if not srcs:
        inst.fail("C16.R2:no-sort", kf.path, kf.span, "the two assets are not sorted before encoding: the key depends on the argument order")
        return
    m = srcs[0]
    kf_home = kf
    if m[0] == "helper":
        if any(x[0] != "helper" or x[1].path != m[1].path for x in srcs):
            inst.fail("C16.R2:no-sort", kf.path, kf.span, "the key mixes elements of differently obtained copies of the two assets: unrecognised-idiom")
            return
        kf, m = m[1], m[2]          # the sort is looked for in the helper that produces the sorted copy
    cons = common.borrow_consumer(P, kf, m[3], m[4])
    # through deref_mut
    steps = 0
    while cons and common.last_seg(cons[1] or "") in ("deref_mut", "as_mut_slice", "as_mut") and steps < 3:
        # find the next consumer of that call's result
        bb = cons[0]
        dest = kf.body.blocks[bb]["term"]["dest"]["l"]
        nxt = None
        for b2, blk in enumerate(kf.body.blocks):
            t = blk["term"]
            if t["k"] == "call" and b2 != bb:
                for a in t["args"]:
                    if a["k"] in ("copy", "move"):
                        # follow one reborrow
                        l = a["place"]["l"]
                        for (db, di, kk) in kf.body.defs().get(l, []):
                            if kk == "full":
                                rv = kf.body.blocks[db]["stmts"][di]["rv"]
                                if rv["k"] == "ref" and rv["place"]["l"] == dest:
                                    nxt = (b2, common.callee_of(t)[0])
                        if l == dest:
                            nxt = (b2, common.callee_of(t)[0])
        cons = nxt
        steps += 1
    if not cons or common.last_seg(cons[1] or "") not in ("sort_by", "sort_unstable_by", "sort_by_key", "sort", "sort_unstable", "sort_by_cached_key"):
        inst.fail("C16.R2:no-sort", kf.path, kf.span, "the copy of the two assets is modified by %s, expected a sort" % (cons[1] if cons else "nothing"))
        return
    sv = P.val_call(kf, kf.body, cons[0])
    if common.last_seg(cons[1]) in ("sort_by", "sort_unstable_by"):
        clo = sv[4][1]
        cf = P.fn(clo[2]) if clo[0] == "agg" and clo[1] == "closure" else None
        ok = False
        if cf is not None:
            ex = common.exit_sites(P, cf)
            if len(ex) == 1 and ex[0][3][0] == "call" and common.last_seg(ex[0][3][3]) == "cmp":
                a, b_ = ex[0][3][4]
                ra, rb = "|".join(sorted(ctx.roots(a))), "|".join(sorted(ctx.roots(b_)))
                ra, rb = re.sub(r"@[\w:{}#]+:bb\d+", "", ra), re.sub(r"@[\w:{}#]+:bb\d+", "", rb)
                pa, pb = P_(cf, 1), P_(cf, 2)

                def callees_on(v, prm):
                    out = set()
                    for x in common.walk(v):
                        if x[0] == "call" and isinstance(x[3], str) and x[4] and set(ctx.roots(x[4][0])) == {prm}:
                            out.add("as_bytes" if ctx.N.is_fn(x[3], "raw_as_bytes") else common.last_seg(x[3]))
                    return out
                ca, cb_ = callees_on(a, pa), callees_on(b_, pb)
                # same expression over the two closure parameters
                if ra.replace(pa, "@") == rb.replace(pb, "@") and "@" in ra.replace(pa, "@") and pb not in ra and pa not in rb and ca == cb_:
                    expr = ra.replace(pa, "@")
                    uses_bytes = "as_bytes" in ca
                    uses_tag = any(t_[2][1].split("::")[-1] in ca for t_ in tags) if tags else False
                    if uses_bytes and (uses_tag or not tags):
                        ok = True
                        inst.site("sorted by the total order on %s of each asset" % sorted(ca))
                    elif uses_bytes:
                        inst.fail("C16.R2:comparator-not-total", cf.path, cf.span,
                                  "the sort compares identifier bytes only; two assets with equal bytes but different kinds tie and keep the caller's order (key not symmetric)")
                        ok = None
        if ok is False:
            inst.fail("C16.R2:comparator", kf.path, common.span_of_block_term(kf, cons[0]), "sort comparator is not `f(a).cmp(f(b))` for one key expression f: unrecognised-idiom")
    else:
        inst.fail("C16.R2:sort-kind", kf.path, common.span_of_block_term(kf, cons[0]), "unrecognised sort call %s: unrecognised-idiom" % cons[1])


def to_raw_lemma(ctx, inst):
    """AssetInfo::to_raw preserves the identity of the asset."""
    P = ctx.P
    try:
        f = ctx.N.info_to_raw
    except AnchorMissing as e:
        f = None
    if f is None:
        inst.fail("%s:to_raw:anchor" % inst.id, "-", "-", "anchor-missing: AssetInfo -> AssetInfoRaw conversion")
        return None
    d = "discr(%s)" % P_(f, 0)
    good = set()
    for b, v, cs in lemmas.fn_table(ctx, f):
        if common.classify_ret_value(v) == "err":
            continue
        rs = "|".join(sorted(ctx.roots(v, (("v", "Ok"), ("f", 0)))))
        if "%s in ['NativeToken']" % d in cs and rs == "A:%s::NativeToken{denom=%s}" % (ctx.N.AssetInfoRaw, P_(f, 0, "~NativeToken.denom")):
            good.add("NativeToken")
        elif "%s in ['Token']" % d in cs and rs == "A:%s::Token{contract_addr=canon(%s)}" % (ctx.N.AssetInfoRaw, P_(f, 0, "~Token.contract_addr")):
            good.add("Token")
        else:
            inst.fail("%s:to_raw:region" % inst.id, f.path, common.span_of_block_term(f, b), "to_raw yields %s under {%s}" % (rs[:160], "; ".join(sorted(cs))))
    if good == {"NativeToken", "Token"}:
        inst.site("AssetInfo::to_raw: Native{denom} -> Native{denom}; Token{addr} -> Token{canonicalize(addr)}")
        return f
    if inst.status == "pass":
        inst.fail("%s:to_raw:incomplete" % inst.id, f.path, f.span, "to_raw does not map both kinds")
    return None


def _run(ctx):
    P = ctx.P
    r1 = ctx.inst("C16.R1", "key discipline: every PAIRS access is keyed by the registry key function applied to the (raw) asset pair, directly or via TMP_PAIR_INFO.pair_key", floor=7)
    r23 = ctx.inst("C16.R2R3", "registry key is symmetric (sorted by a total order) and injective (kind tags, length-prefixed identifiers)", floor=3)
    r4 = ctx.inst("C16.R4", "same-asset and already-registered guards dominate the TMP write and the instantiate sub-message", floor=2)
    r5 = ctx.inst("C16.R5", "creation records the assets' true decimals (queried per asset, failure => Err) and hands the same values to the pair and to TMP", floor=3)
    r6 = ctx.inst("C16.R6", "registration in the reply: key and assets from TMP, addresses from the reply, LP token / requirements / commission from the pair's self-description", floor=6)
    r7 = ctx.inst("C16.R7", "commission rate above 1 is rejected before creation", floor=1)
    try:
        fr = roles.FactoryRoles(P)
    except AnchorMissing as e:
        for r in (r1, r23, r4, r5, r6, r7):
            r.fail("%s:anchor" % r.id, "-", "-", "anchor-missing: %s" % e)
        return
    kf = key_function(ctx, r1)
    if kf is None:
        return
    analyse_key_fn(ctx, r23, kf)
    traw = to_raw_lemma(ctx, r1)
    cp = fr.create_pair[3]
    reply = fr.reply
    KEY = "C:%s@" % kf.path

    # ---- R1 ---------------------------------------------------------------------------------------------
    infos_i = common.param_index_of_type(cp, r"^\[%s; 2\]$" % ctx.N.rx("AssetInfo"))
    for fn, b, op, v in pairs_accesses(ctx):
        where = common.span_of_block_term(fn, b)
        if op in ("range", "keys", "range_raw", "keys_raw", "prefix"):
            r1.site("%s %s (scan)" % (where, op))
            continue
        kr = set(ctx.roots(v[4][2]))
        if kr == {"load(%s).%s" % (ctx.N.TMP, ctx.N.TMP_KEY_FIELD)}:
            r1.site("%s %s keyed by TMP_PAIR_INFO.pair_key" % (where, op))
            continue
        if len(kr) == 1 and list(kr)[0].endswith(".0"):
            from . import c17 as _c17
            if list(kr)[0][:-2] in _c17.raw_scan_items(ctx, fn, any_filter=True):
                r1.site("%s %s keyed by the scanned entry's own key (unbounded PAIRS scan)" % (where, op))
                continue
        if len(kr) != 1 or not list(kr)[0].startswith(KEY):
            r1.fail("C16.R1:key-origin:%s:%s" % (fn.path, op), fn.path, where, "PAIRS.%s is keyed by %s, expected the registry key function" % (op, sorted(kr)))
            continue
        # the key function's argument: [to_raw(x[0]), to_raw(x[1])] of one asset pair
        kc = [x for x in common.walk(v[4][2]) if x[0] == "call" and isinstance(x[3], str) and generic_path(x[3]) == kf.path]
        arg = kc[0][4][0]
        ar = "|".join(sorted(ctx.roots(arg)))
        m = re.match(r"^A:array\[C:%s@[^;]*;C:%s@[^;]*\]$" % (ctx.N.rx("info_to_raw"), ctx.N.rx("info_to_raw")), ar)
        if not m:
            r1.fail("C16.R1:key-arg:%s:%s" % (fn.path, op), fn.path, where, "key function applied to %s, expected [to_raw(a[0]), to_raw(a[1])]" % ar[:200])
            continue
        trs = [x for x in common.walk(common.inline_helpers(P, arg)) if x[0] == "call" and ctx.N.is_fn(x[3], "info_to_raw")]
        srcs = sorted("|".join(sorted(ctx.roots(x[4][0]))) for x in trs)
        base = None
        if len(srcs) == 2 and srcs[0].endswith("[0]") and srcs[1].endswith("[1]") and srcs[0][:-3] == srcs[1][:-3]:
            base = srcs[0][:-3]
        if base is None:
            r1.fail("C16.R1:key-elems:%s:%s" % (fn.path, op), fn.path, where, "key built from %s, expected elements [0] and [1] of one asset pair" % srcs)
        else:
            r1.site("%s %s keyed by key([to_raw(%s[0]), to_raw(%s[1])])" % (where, op, base[-50:], base[-50:]))
    # TMP.pair_key is written from the key function
    for fn in P.prod_fns():
        for (b, op, item, v) in common.storage_sites(P, fn, writes=True):
            if item == ctx.N.TMP and op == "remove":
                r1.site("%s TMP_PAIR_INFO cleared (no key involved)" % common.span_of_block_term(fn, b))
                continue
            if item == ctx.N.TMP:
                kr = set(ctx.roots(v[4][2], (("f", ctx.N.TMP_KEY_FIELD),)))
                if len(kr) != 1 or not list(kr)[0].startswith(KEY):
                    r1.fail("C16.R1:tmp-key", fn.path, common.span_of_block_term(fn, b), "TMP_PAIR_INFO.pair_key ⊢ %s, expected the registry key function" % sorted(kr))
                else:
                    r1.site("%s TMP_PAIR_INFO.pair_key ⊢ key function" % common.span_of_block_term(fn, b))

    # ---- R4 -------------------------------------------------------------------------------------------------------
    body = cp.body
    sinks = [b for (b, d) in roles.sink_blocks(P, cp)]
    same = None
    for g in common.bool_guards(P, cp):
        c = g.cond
        if c[0] == "cmp" and c[1] in ("eq", "ne", "equal") and len(c[2]) == 2:
            rs = sorted("|".join(sorted(ctx.roots(x))) for x in c[2])
            if rs == [P_(cp, infos_i, "[0]"), P_(cp, infos_i, "[1]")]:
                same = (g, c[1] != "ne")
    if same is None:
        r4.fail("C16.R4:no-same-asset-guard", cp.path, cp.span, "creation does not compare the two assets of the new pair with each other")
    else:
        g, truth = same
        # the comparison must be a real equality of AssetInfo (derived PartialEq or the verified equal())
        callee = g.cond[5]
        ok_eq = False
        if isinstance(callee, str):
            gp = generic_path(callee)
            if ctx.N.equal(ctx.N.AssetInfo) is not None and gp == ctx.N.equal(ctx.N.AssetInfo).path:
                lemmas.check_equal(ctx, r4)
                ok_eq = True
            elif re.search(r"<%s as (core|std)::cmp::PartialEq>::(eq|ne)$" % ctx.N.rx("AssetInfo"), gp) or \
                    re.search(r"cmp::impls::<impl (core|std)::cmp::PartialEq<&('\w+ )?(mut )?B> for &('\w+ )?(mut )?A>::(eq|ne)$", callee) or \
                    re.search(r"<&('\w+ )?%s as (core|std)::cmp::PartialEq<&('\w+ )?%s>>::(eq|ne)$" % (ctx.N.rx("AssetInfo"), ctx.N.rx("AssetInfo")), gp):
                # (also the blanket `&A == &B`, which forwards to A == B; the operands are the two AssetInfo elements of the parameter)
                impls = [i for i in P.impls if i.get("trait", "").endswith("cmp::PartialEq") and i["self"] == ctx.N.AssetInfo]
                ok_eq = len(impls) == 1 and impls[0]["derived"]
        if not ok_eq:
            r4.fail("C16.R4:same-asset-eq", cp.path, common.span_of_block_term(cp, g.b), "the same-asset test does not use the derived / verified equality of AssetInfo: unrecognised-idiom")
        ok, why = common.fail_edge_only_errors(P, cp, g.edge(truth), sinks)
        if not ok:
            r4.fail("C16.R4:same-asset-fail-edge", cp.path, common.span_of_block_term(cp, g.b), "identical assets are not rejected: %s" % why)
        for b in sinks:
            if not body.edge_dominates(g.edge(not truth), b):
                r4.fail("C16.R4:same-asset-not-dominating", cp.path, common.span_of_block_term(cp, b), "an effect of creation is reachable without the same-asset check")
        if r4.status == "pass":
            r4.site("asset_infos[0] == asset_infos[1] => Err at %s dominates %d effect(s)" % (common.span_of_block_term(cp, g.b), len(sinks)))
    # duplicate: region discr(may_load(PAIRS,key)) = Ok & inner Some must only err
    dup_ok = False
    for fn, b, op, v in pairs_accesses(ctx):
        if fn.path != cp.path or op not in ("may_load", "load", "has"):
            continue
        mv = v
        # the Some edge of the inner option
        for s, blk in enumerate(body.blocks):
            if blk["cleanup"] or blk["term"]["k"] != "switch":
                continue
            c = common.switch_cond(P, cp, s)
            if not c or c[0] != "discr":
                continue
            val = c[1]
            ty = common.discr_place_ty(cp, s) or ""
            if "option::Option" in common.base_ty(ty) and mv in list(common.walk(val)):
                t = blk["term"]
                for x, tb in t["arms"] + [["otherwise", t["otherwise"]]]:
                    nm = common.variant_name(P, ty, x) if x != "otherwise" else None
                    if nm == "Some" or (x == "otherwise" and all(common.variant_name(P, ty, y) != "Some" for y, _ in t["arms"]) and body.blocks[tb]["term"]["k"] != "unreachable"):
                        ok, why = common.fail_edge_only_errors(P, cp, (s, tb), sinks)
                        if ok:
                            dup_ok = True
                            r4.site("already-registered key (may_load == Some) => Err at %s" % common.span_of_block_term(cp, s))
                        else:
                            r4.fail("C16.R4:duplicate-not-rejected", cp.path, common.span_of_block_term(cp, s), "a pair whose key is already registered is not always rejected: %s" % why)
                            dup_ok = True
        # bool forms of the same test: `PAIRS.load(..).is_ok()`, `PAIRS.may_load(..)?.is_some()`, `PAIRS.has(..)` (directly or
        # through a bool-returning storage accessor): the true edge must only err
        for g_ in common.bool_guards(P, cp, helpers=False):
            c_ = g_.cond
            form = None
            if c_[0] == "cmp" and c_[1] in ("is_ok", "is_some") and len(c_[2]) == 1 and mv in list(common.walk(c_[2][0])):
                form = {"is_ok": ("load",), "is_some": ("may_load",)}[c_[1]]
            elif c_[0] == "val" and c_[1] == mv and op == "has":
                form = ("has",)
            if form is None or op not in form:
                continue
            ok, why = common.fail_edge_only_errors(P, cp, g_.edge(True), sinks)
            dup_ok = True
            if ok:
                r4.site("already-registered key (%s) => Err at %s" % (c_[1] if c_[0] == "cmp" else "has", common.span_of_block_term(cp, g_.b)))
            else:
                r4.fail("C16.R4:duplicate-not-rejected", cp.path, common.span_of_block_term(cp, g_.b), "a pair whose key is already registered is not always rejected: %s" % why)
    if not dup_ok:
        r4.fail("C16.R4:no-duplicate-guard", cp.path, cp.span, "creation does not test whether the key is already registered (PAIRS.may_load == Some => Err)")
    # the lookup must precede the TMP write and the sub-message (it is a read of the same key)
    # (covered: the Some edge leads to Err only; the None/Err edges continue)

    # ---- R5 decimals -------------------------------------------------------------------------------------------------------
    try:
        qd = ctx.N.query_decimals
    except AnchorMissing:
        qd = None
    if qd is None:
        r5.fail("C16.R5:anchor", "-", "-", "anchor-missing: AssetInfo::query_decimals")
    else:
        # lemma on query_decimals
        d = "discr(%s)" % P_(qd, 0)
        seen = set()
        for b, v, cs in lemmas.fn_table(ctx, qd):
            if common.classify_ret_value(v) == "err":
                continue
            calls = [x for x in common.walk(v) if x[0] == "call" and isinstance(x[3], str) and roles.is_workspace_fn(P, x[3])]
            names = {"query_native_decimals" if ctx.N.is_fn(x[3], "q_native_decimals") else generic_path(x[3]) for x in calls}
            if "%s in ['NativeToken']" % d in cs and names == {"query_native_decimals"}:
                q = calls[0]
                if set(ctx.roots(q[4][2])) == {P_(qd, 0, "~NativeToken.denom")} and set(ctx.roots(q[4][1])) == {P_(qd, 1)}:
                    seen.add("native")
            elif "%s in ['Token']" % d in cs:
                rs = set(ctx.roots(v, (("v", "Ok"), ("f", 0))))
                if len(rs) == 1 and re.match(r"^C:%s@.*\.decimals$" % ctx.N.rx("q_token_info"), list(rs)[0]):
                    q = [x for x in common.walk(v) if x[0] == "call" and ctx.N.is_fn(x[3], "q_token_info")]
                    if q and set(ctx.roots(q[0][4][1])) == {P_(qd, 0, "~Token.contract_addr")}:
                        seen.add("token")
        if seen != {"native", "token"}:
            r5.fail("C16.R5:query_decimals", qd.path, qd.span, "query_decimals does not read native decimals from the factory allow-list and cw20 decimals from the token's TokenInfo (%s)" % sorted(seen))
        else:
            r5.site("query_decimals: native -> factory NativeTokenDecimals(denom); token -> TokenInfo(contract).decimals")
        env = param(cp, ENV_TY)
        qcalls = [(b, P.val_call(cp, body, b)) for b, p, fr_, t in P.calls(cp) if p and generic_path(p) == qd.path]
        # a private wrapper that only forwards the query (`asset.query_decimals(addr, querier).map_err(..)`): its call sites are
        # query sites, judged on the inner call with the wrapper's parameters replaced by the arguments
        for b, p, fr_, t in P.calls(cp):
            w = (P.fn(p) or P.fn(generic_path(p))) if p else None
            if w is None or w.path == qd.path or w.body is None or not roles.is_workspace_fn(P, p) or not common.pure_helper(P, w):
                continue
            ex_ = common.exit_sites(P, w)
            if len(ex_) != 1:
                continue
            iv = ex_[0][3]
            for _ in range(4):
                ti_ = common.transparent_arg(iv[3]) if iv[0] == "call" else None
                if ti_ is None or iv[0] != "call" or generic_path(iv[3]) == qd.path:
                    break
                iv = iv[4][ti_]
            if iv[0] == "call" and isinstance(iv[3], str) and generic_path(iv[3]) == qd.path:
                cv_ = P.val_call(cp, body, b)
                qcalls.append((b, common.subst_params(iv, {("param", w.path, k_): a_ for k_, a_ in enumerate(cv_[4])})))
        by_idx = {}
        # loop form: `for (i, a) in asset_infos.iter().enumerate() { decimals[i] = a.query_decimals(..)? }` over the fixed-size
        # pair: one query site serves both positions, element i of the result belongs to asset i
        loop_q = None
        enum_loops = {}
        for l_ in common.loops(P, cp):
            if not l_["is_loop"]:
                continue
            try:
                ads_l, kind_l, src_l = common.iter_chain(l_["iter"])
            except Exception:
                continue
            if [a for a, _ in ads_l] == ["enumerate"] and kind_l in ("iter", "into_iter") and set(ctx.roots(src_l)) == {P_(cp, infos_i)}:
                enum_loops[l_["item_root"]] = l_
        for b, v in list(qcalls):
            ar = "|".join(sorted(ctx.roots(v[4][0])))
            if ar.endswith(".1") and ar[:-2] in enum_loops and len(qcalls) == 1:
                l_ = enum_loops[ar[:-2]]
                acct = set(ctx.roots(v[4][1]))
                pg = common.propagated(P, cp, b)
                lb_ = body.reachable_from(l_["some_edge"][1], cut_edges=(l_["none_edge"],))
                inner_c = [c_ for c_ in common.control_conditions(P, cp, b) if c_["sw"] in lb_ and c_["sw"] != l_["switch"] and
                           not (c_["cond"][0] == "discr" and c_["allowed"] in (["Continue"], ["Ok"]))]
                if acct != {P_(cp, env, ".contract.address")}:
                    r5.fail("C16.R5:query-account", cp.path, common.span_of_block_term(cp, b), "native decimals are looked up at %s, expected the factory's own address" % sorted(acct))
                elif pg is None or not common.fail_edge_only_errors(P, cp, pg[2], sinks)[0]:
                    r5.fail("C16.R5:invalid-asset-accepted", cp.path, common.span_of_block_term(cp, b), "an asset whose decimals cannot be queried is not rejected")
                elif inner_c or any(not body.edge_dominates(l_["none_edge"], sb) for sb in sinks):
                    r5.fail("C16.R5:query-not-dominating", cp.path, common.span_of_block_term(cp, b), "the per-asset decimals query is conditional, or creation effects do not wait for the loop over both assets")
                else:
                    qroot_ = "C:%s@%s:bb%d" % (qd.path, v[1], v[2])
                    loop_q = (ar[:-2], qroot_)
                    r5.site("decimals queried for every asset of the pair in a loop over asset_infos.iter().enumerate(), failure => Err")
                qcalls.remove((b, v))
        for b, v in qcalls:
            ar = "|".join(sorted(ctx.roots(v[4][0])))
            m = re.match(r"^%s\[(\d)\]$" % re.escape(P_(cp, infos_i)), ar)
            acct = set(ctx.roots(v[4][1]))
            if not m:
                r5.fail("C16.R5:query-arg", cp.path, common.span_of_block_term(cp, b), "decimals are queried for %s, expected one of the new pair's assets" % ar)
                continue
            if acct != {P_(cp, env, ".contract.address")}:
                r5.fail("C16.R5:query-account", cp.path, common.span_of_block_term(cp, b), "native decimals are looked up at %s, expected the factory's own address" % sorted(acct))
            pg = common.propagated(P, cp, b)
            if pg is None:
                r5.fail("C16.R5:query-unchecked", cp.path, common.span_of_block_term(cp, b), "a failing decimals query is not turned into an error")
            else:
                s, cont, brk = pg
                ok, why = common.fail_edge_only_errors(P, cp, brk, sinks)
                if not ok:
                    r5.fail("C16.R5:invalid-asset-accepted", cp.path, common.span_of_block_term(cp, b), "an asset whose decimals cannot be queried is not rejected: %s" % why)
                for sb in sinks:
                    if not body.edge_dominates(cont, sb):
                        r5.fail("C16.R5:query-not-dominating", cp.path, common.span_of_block_term(cp, sb), "creation effects are reachable without a successful decimals query of asset %s" % m.group(1))
            by_idx[int(m.group(1))] = "C:%s@%s:bb%d" % (qd.path, v[1], v[2])
        if loop_q is not None and not by_idx:
            by_idx = {0: loop_q[1], 1: loop_q[1]}
        if sorted(by_idx) != [0, 1]:
            r5.fail("C16.R5:coverage", cp.path, cp.span, "decimals are queried for assets %s, expected both" % sorted(by_idx))
        else:
            want = "A:array[%s;%s]" % (by_idx[0], by_idx[1])
            if loop_q is not None:
                # the array written at the enumerate index of the very element that was queried
                want = "A:repeat|X:upd(A:repeat;[@%s.0];%s)" % loop_q

            def decimals_array_ok(arrv):
                """element k is the result of the decimals query *of asset k* (decided on the value, so that two calls of one
                forwarding wrapper — same inner call site — are still told apart by their argument)"""
                if loop_q is not None:
                    return "|".join(sorted(ctx.roots(arrv))) == want
                arrv = common.inline_helpers(P, arrv)
                while arrv[0] == "call" and isinstance(arrv[3], str) and common.transparent_arg(arrv[3]) is not None:
                    arrv = arrv[4][common.transparent_arg(arrv[3])]
                if arrv[0] != "agg" or arrv[1] != "array" or len(arrv[3]) != 2:
                    return by_idx[0] != by_idx[1]          # not a literal array: the root strings decide (distinct call sites)
                for k_, (_, ev) in enumerate(arrv[3]):
                    qs_ = [x for x in common.walk(ev) if x[0] == "call" and isinstance(x[3], str) and generic_path(x[3]) == qd.path]
                    if len(qs_) != 1 or "|".join(sorted(ctx.roots(qs_[0][4][0]))) != "%s[%d]" % (P_(cp, infos_i), k_):
                        return False
                return True
            # into TMP and into the instantiate message
            for (b, op, item, v) in common.storage_sites(P, cp, writes=True):
                if item == ctx.N.TMP:
                    got = "|".join(sorted(ctx.roots(v[4][2], (("f", "asset_decimals"),))))
                    if got != want or not decimals_array_ok(common.proj(v[4][2], ("f", "asset_decimals"))):
                        r5.fail("C16.R5:tmp-decimals", cp.path, common.span_of_block_term(cp, b), "TMP.asset_decimals ⊢ %s, expected [decimals(asset0), decimals(asset1)]" % got[:200])
                    else:
                        r5.site("TMP.asset_decimals ⊢ [query_decimals(asset_infos[0]), query_decimals(asset_infos[1])]")
                    got_i = "|".join(sorted(ctx.roots(v[4][2], (("f", "asset_infos"),))))
                    if not re.match(r"^A:array\[C:%s@[^;]*;C:%s@[^;]*\]$" % (ctx.N.rx("info_to_raw"), ctx.N.rx("info_to_raw")), got_i):
                        r5.fail("C16.R5:tmp-infos", cp.path, common.span_of_block_term(cp, b), "TMP.asset_infos ⊢ %s" % got_i[:200])
            for (fn, b, i, adt, var, v, span) in common.message_sites(P):
                if fn.path == cp.path and common.adt_short(adt) == "WasmMsg" and var == "Instantiate":
                    pay = "|".join(sorted(ctx.roots(dict(v[3])["msg"])))
                    im_ = [x for x in common.walk(common.inline_helpers(P, dict(v[3])["msg"])) if x[0] == "agg" and x[1] == "adt" and "asset_decimals" in dict(x[3])]
                    im_ = [x for k_, x in enumerate(im_) if x not in im_[:k_]]
                    elem_ok = len(im_) == 1 and decimals_array_ok(dict(im_[0][3])["asset_decimals"])
                    if ("asset_decimals=%s," % want) not in pay or ("asset_infos=%s," % P_(cp, infos_i)) not in pay or not elem_ok:
                        r5.fail("C16.R5:instantiate-msg", cp.path, span.replace("!x", ""), "pair InstantiateMsg does not carry the queried decimals / the given assets: %s" % pay[:300])
                    else:
                        r5.site("pair InstantiateMsg carries the same decimals and the given assets")
                    # the first-provision requirements (whitelist, both minimums) the pair will enforce are the ones given to
                    # CreatePair: the message field is the handler's parameter, whole or rebuilt field by field from itself
                    if len(im_) == 1 and "requirements" in dict(im_[0][3]):
                        rq = dict(im_[0][3])["requirements"]
                        try:
                            rty = ctx.N.field_ty(str(im_[0][2]), None, "requirements")
                        except AnchorMissing:
                            rty = None
                        rq_i = common.param_index_of_type(cp, "^%s$" % re.escape(rty)) if rty else None
                        if rq_i is not None:
                            RQ = P_(cp, rq_i)
                            rr = set(ctx.roots(rq))
                            okq = rr == {RQ}
                            if not okq:
                                a_ = P.adts.get(rty)
                                fns_ = [f_["name"] for f_ in a_["variants"][0]["fields"]] if a_ else []
                                okq = bool(fns_) and all(set(ctx.roots(rq, (("f", n_),))) == {"%s.%s" % (RQ, n_)} for n_ in fns_)
                            if okq:
                                r5.site("pair InstantiateMsg.requirements ⊢ CreatePair's requirements (every field)")
                            else:
                                r5.fail("C16.R5:instantiate-requirements", cp.path, span.replace("!x", ""),
                                        "pair InstantiateMsg.requirements ⊢ %s, expected the requirements given to CreatePair field by field: the pair would enforce other first-provision minimums / another whitelist than configured" % sorted(rr)[:3])

    # ---- R6 reply ------------------------------------------------------------------------------------------------------------------
    saves = [(b, v) for (b, op, item, v) in common.storage_sites(P, reply, writes=True) if item == ctx.N.PAIRS]
    if len(saves) != 1:
        r6.fail("C16.R6:save-count", reply.path, reply.span, "reply performs %d PAIRS writes, expected one" % len(saves))
    else:
        b, v = saves[0]
        where = common.span_of_block_term(reply, b)
        rec = v[4][3]
        def fr_(name):
            return "|".join(sorted(ctx.roots(rec, (("f", name),))))
        addr = None
        m = re.match(r"^canon\((C:cw_utils::parse_reply_instantiate_data@[^)]*\.contract_address)\)$", fr_("contract_addr"))
        if not m:
            r6.fail("C16.R6:contract_addr", reply.path, where, "registered contract_addr ⊢ %s, expected canonicalize(reply.contract_address)" % fr_("contract_addr"))
        else:
            addr = m.group(1)
            r6.site("contract_addr ⊢ canonicalize(instantiate reply address)")
        q = [x for x in common.walk(rec) if x[0] == "call" and ctx.N.is_fn(x[3], "q_pair_info_from_pair")]
        qroot = None
        if not q or addr is None or set(ctx.roots(q[0][4][1])) != {addr}:
            r6.fail("C16.R6:self-description", reply.path, where, "the pair's self-description is not queried from the newly instantiated address")
        else:
            qroot = "C:%s@%s:bb%d" % (ctx.N.cpath("q_pair_info_from_pair"), reply.path, q[0][2])
            r6.site("pair self-description queried at the reply address")
        if qroot:
            checks = [("liquidity_token", "canon(%s.liquidity_token)" % qroot), ("requirements", "%s.requirements" % qroot)]
            for name, want in checks:
                if fr_(name) != want:
                    r6.fail("C16.R6:%s" % name, reply.path, where, "registered %s ⊢ %s, expected %s" % (name, fr_(name), want))
                else:
                    r6.site("%s ⊢ pair's own %s" % (name, name))
            cr = fr_("commission_rate")
            crv = [x for x in common.walk(proj_field(rec, "commission_rate")) if x[0] == "proj" or x[0] == "call"]
            crx = common.inline_helpers(P, proj_field(rec, "commission_rate"))       # the record may be assembled by a private constructor helper
            if (qroot + ".commission_rate") not in cr and not any((qroot + ".commission_rate") in "|".join(sorted(ctx.roots(x))) for x in list(common.walk(proj_field(rec, "commission_rate"))) + list(common.walk(crx))):
                r6.fail("C16.R6:commission_rate", reply.path, where, "registered commission_rate ⊢ %s, expected the pair's own commission_rate" % cr)
            else:
                r6.site("commission_rate ⊢ pair's own commission_rate (via text round trip)")
        for name in ("asset_infos", "asset_decimals"):
            if fr_(name) != "load(%s).%s" % (ctx.N.TMP, name):
                r6.fail("C16.R6:%s" % name, reply.path, where, "registered %s ⊢ %s, expected TMP_PAIR_INFO.%s" % (name, fr_(name), name))
            else:
                r6.site("%s ⊢ TMP_PAIR_INFO.%s" % (name, name))
    # pair instantiate stores the same-named message fields
    try:
        pi = roles.entry(P, "pair", "instantiate")
        msg_i = common.param_index_of_type(pi, "^%s$" % re.escape(ctx.N.inst_msg("pair")))
        for (b, op, item, v) in common.storage_sites(P, pi, writes=True):
            if item == ctx.N.PAIR_INFO:
                rec = v[4][2]
                for name, want in (("asset_decimals", P_(pi, msg_i, ".asset_decimals")), ("requirements", P_(pi, msg_i, ".requirements")),
                                   ("commission_rate", P_(pi, msg_i, ".commission_rate"))):
                    got = "|".join(sorted(ctx.roots(rec, (("f", name),))))
                    if got != want:
                        r6.fail("C16.R6:pair-instantiate:%s" % name, pi.path, common.span_of_block_term(pi, b), "pair stores %s ⊢ %s, expected the instantiate message's %s" % (name, got, name))
                    else:
                        r6.site("pair stores %s ⊢ InstantiateMsg.%s" % (name, name))
                got = "|".join(sorted(ctx.roots(rec, (("f", "asset_infos"),))))
                if not re.match(r"^A:array\[C:%s@[^;]*;C:%s@[^;]*\]$" % (ctx.N.rx("info_to_raw"), ctx.N.rx("info_to_raw")), got):
                    r6.fail("C16.R6:pair-instantiate:asset_infos", pi.path, common.span_of_block_term(pi, b), "pair stores asset_infos ⊢ %s" % got[:200])
    except AnchorMissing as e:
        r6.fail("C16.R6:pair-anchor", "-", "-", "anchor-missing: %s" % e)

    # ---- R7 commission bound ----------------------------------------------------------------------------------------------------------
    cr_i = common.param_index_of_type(cp, r"^std::option::Option<bignumber::\S*Decimal256>$")
    found = False
    for g in common.bool_guards(P, cp):
        c = g.cond
        if c[0] == "cmp" and c[1] in ("gt", "lt", "ge", "le") and len(c[2]) == 2:
            a, b_ = c[2]
            kind = c[1]
            if kind in ("lt", "le"):
                a, b_ = b_, a
                kind = {"lt": "gt", "le": "ge"}[kind]
            ra, rb = set(ctx.roots(a)), set(ctx.roots(b_))
            # the explicit rate, or the rate the pair is really created with (`commission_rate.unwrap_or(default)`)
            is_rate = ra == {P_(cp, cr_i)} or (len(ra) == 1 and list(ra)[0].startswith("or(%s;" % P_(cp, cr_i)))
            if is_rate and len(rb) == 1 and re.match(r"^C:bignumber::(\w+::)*Decimal256::one@", list(rb)[0]):
                found = True
                if kind != "gt":
                    r7.fail("C16.R7:boundary", cp.path, common.span_of_block_term(cp, g.b), "commission rate of exactly 1 is rejected (>=), the stated bound is (0..=1)")
                ok, why = common.fail_edge_only_errors(P, cp, g.edge(True), sinks)
                if not ok:
                    r7.fail("C16.R7:fail-edge", cp.path, common.span_of_block_term(cp, g.b), "a commission rate above 1 is not rejected: %s" % why)
                else:
                    r7.site("commission_rate > 1 => Err at %s" % common.span_of_block_term(cp, g.b))
    if not found:
        r7.fail("C16.R7:no-guard", cp.path, cp.span, "no upper bound check of the commission rate against Decimal256::one()")
    ctx.assumptions.append("addr_canonicalize is injective; identifiers are shorter than 2^32 bytes (length prefix is a u32); cw-storage-plus Map semantics")


def proj_field(v, name):
    from ..mir import proj
    return proj(v, ("f", name))


def run(ctx):
    from .. import compose
    from . import c17
    _run(ctx)
    r8 = ctx.inst("C16.R8", "allow-list enforcement: the factory's native-decimals query errs for an unregistered denom and answers exactly the stored value — creation only learns native decimals through it (C16.R5)", floor=1)
    try:
        c17.allow_list_reader_strict(ctx, r8)
    except AnchorMissing as e:
        r8.fail("C16.R8:anchor", "-", "-", "anchor-missing: %s" % e)
    from . import c14
    r9 = ctx.inst("C16.R9", "what the pair reports about its decimals can only be changed by the factory (shared with C14.R6): record and self-description stay equal after creation", floor=1)
    compose.pull(ctx, r9, c14, {"C14.R6"}, "C16.R9")
    r10 = ctx.inst("C16.R10", "a decimals re-registration keeps record and self-description equal: the factory rewrites every matching record and the pair applies the same array under the same condition (shared with C17.R1/R3/R5)", floor=3)
    compose.pull(ctx, r10, c17, {"C17.R1", "C17.R3", "C17.R5"}, "C16.R10")
